(* Tie lemmas: the generated translation of v2/limit/rate.go (GenRate.v: Rate.IsValid, recalculateQuantity,
   Rate.Recalculate, Rate.Optimize, Rate.Flatten) against the hand-written model RateConv.v (is_valid, recalculate,
   optimize, flatten).  Imports only this one generated file; the ties of the validation in v2/limit/limit.go
   (GenLimit.v: tie_Limit_IsValid, tie_Limit_Opts_isValid) live in GenTieLimit.v, the coherence of the two generated
   copies of Rate.IsValid in GenTieRateLimit.v.

   The model works over Z (floored division, ranges as the hypothesis in_range); the generated code works with
   Interval : Z (int64), Quantity : N (uint64), the conversions uint64(Interval) = u_of_i, time.Duration(...) = i_of_u,
   N.div, and exact big-integer arithmetic with the truncated quotient Z.quot.  The corners in which these differ
   (negative Interval under uint64(.), a quotient of 2^63 or more under int64(.), truncated against floored division
   for a negative dividend) are all behind the validation `Interval > 0`, `Quantity > 0`, `minimum >= 0`, so the
   equalities hold on the whole of in_range -- in fact under `ivl r <= max_i64` and `0 <= qty r` alone
   (Recalculate_gen), and with no hypothesis on the minimum. *)
From Coq Require Import List NArith ZArith Bool Lia.
From Cqos Require Import GoSem GenRate RateConv.
Import ListNotations.
Open Scope Z_scope.

(* ------------------------------------------------------------------ abstraction *)

(* model rate -> generated record (Quantity is a uint64: N) *)
Definition conc (r : RateConv.rate) : GenRate.Rate := mk_Rate (ivl r) (Z.to_N (qty r)).
(* generated record -> model rate *)
Definition absr (g : GenRate.Rate) : RateConv.rate := {| ivl := Rate_Interval g; qty := Z.of_N (Rate_Quantity g) |}.

Lemma conc_absr g : conc (absr g) = g.
Proof. destruct g as [i q]. unfold conc, absr; cbn. now rewrite N2Z.id. Qed.
Lemma absr_conc r : 0 <= qty r -> absr (conc r) = r.
Proof. destruct r as [i q]; unfold conc, absr; cbn; intros H. now rewrite Z2N.id. Qed.

(* a generated record that is a Go value (Interval an int64, Quantity a uint64) abstracts to an in-range model rate *)
Definition go_rate (g : GenRate.Rate) : Prop := i_range (Rate_Interval g) /\ (Rate_Quantity g < u_modulus)%N.
Lemma in_range_absr g m : go_rate g -> i_range m -> in_range (absr g) m.
Proof.
  destruct g as [i q]. unfold go_rate, in_range, i_range, absr, max_i64, max_u64; cbn.
  change i_half with 9223372036854775808. change u_modulus with 18446744073709551616%N. lia.
Qed.
Lemma go_rate_conc r m : in_range r m -> go_rate (conc r).
Proof.
  destruct r as [i q]. unfold go_rate, in_range, i_range, conc, max_i64, max_u64; cbn.
  change i_half with 9223372036854775808. change u_modulus with 18446744073709551616%N. lia.
Qed.

(* the error constants: model -> generated, and back *)
Definition conv (e : RateConv.err) : err_Rate :=
  match e with
  | IntervalNegative => ErrIntervalNegative
  | IntervalZero => ErrIntervalZero
  | QuantityZero => ErrQuantityZero
  | MinimumNegative => ErrMinimumIntervalNegative
  | ConvertedIntervalZero => ErrConvertedIntervalZero
  | QuantityUnrepresentable => ErrConvertedQuantityUnrepresentable
  end.
Definition vnoc (e : err_Rate) : RateConv.err :=
  match e with
  | ErrIntervalNegative => IntervalNegative
  | ErrIntervalZero => IntervalZero
  | ErrQuantityZero => QuantityZero
  | ErrMinimumIntervalNegative => MinimumNegative
  | ErrConvertedIntervalZero => ConvertedIntervalZero
  | ErrConvertedQuantityUnrepresentable => QuantityUnrepresentable
  end.
Lemma vnoc_conv e : vnoc (conv e) = e.   Proof. now destruct e. Qed.
Lemma conv_vnoc e : conv (vnoc e) = e.   Proof. now destruct e. Qed.
Lemma conv_inj a b : conv a = conv b -> a = b.
Proof. intros H. rewrite <- (vnoc_conv a), <- (vnoc_conv b). now f_equal. Qed.

(* result of the model -> result of the generated function: an error comes with the zero Rate *)
Definition img (x : RateConv.rate + RateConv.err) : GenRate.Rate * option err_Rate :=
  match x with
  | inl r' => (conc r', None)
  | inr e => (zero_Rate, Some (conv e))
  end.
(* and back *)
Definition gmi (x : GenRate.Rate * option err_Rate) : RateConv.rate + RateConv.err :=
  match x with
  | (g, None) => inl (absr g)
  | (_, Some e) => inr (vnoc e)
  end.

(* ------------------------------------------------------------------ arithmetic facts *)

Lemma to_N_eqb_0 q : 0 <= q -> (Z.to_N q =? 0)%N = (q =? 0).
Proof.
  intros H. destruct (Z.eqb_spec q 0) as [->|Hq]; [reflexivity|].
  apply N.eqb_neq. lia.
Qed.

(* time.Duration(uint64(Interval) / Quantity) is the floored quotient, for a validated rate *)
Lemma interval_conv i q :
  0 < i <= max_i64 -> 0 < q ->
  i_of_u (u_of_i i / Z.to_N q)%N = i / q.
Proof.
  unfold max_i64. intros Hi Hq.
  rewrite u_of_i_nonneg by (change i_modulus with 18446744073709551616; lia).
  assert (Hdiv : Z.of_N (Z.to_N i / Z.to_N q)%N = i / q).
  { rewrite N2Z.inj_div, !Z2N.id by lia. reflexivity. }
  assert (Hle : 0 <= i / q <= i).
  { split; [apply Z.div_pos; lia|]. apply Z.div_le_upper_bound; nia. }
  rewrite i_of_u_small; rewrite Hdiv; [reflexivity|].
  change i_half with 9223372036854775808. lia.
Qed.

(* the big-integer quotient is the floored quotient, and non-negative, for a validated rate and minimum *)
Lemma quot_conv q m i : 0 <= q -> 0 <= m -> 0 < i -> Z.quot (q * m) i = q * m / i /\ 0 <= q * m / i.
Proof.
  intros Hq Hm Hi. rewrite Z.quot_div_nonneg by nia. split; [reflexivity|]. apply Z.div_pos; nia.
Qed.

(* ------------------------------------------------------------------ the functions *)

(* Rate.IsValid: no hypothesis about the interval, the quantity only has to be a natural number *)
Lemma IsValid_gen w r : 0 <= qty r -> gen_IsValid w (conc r) = (w, option_map conv (is_valid r)).
Proof.
  intros Hq. unfold gen_IsValid, is_valid, conc. cbn.
  destruct (ivl r <? 0); cbn; [reflexivity|].
  destruct (ivl r =? 0); cbn; [reflexivity|].
  rewrite to_N_eqb_0 by exact Hq.
  destruct (qty r =? 0); reflexivity.
Qed.

(* is_valid yields nothing but the three validation errors *)
Lemma is_valid_errors r e :
  is_valid r = Some e -> e = IntervalNegative \/ e = IntervalZero \/ e = QuantityZero.
Proof.
  unfold is_valid. destruct (ivl r <? 0); [intros [= <-]; auto|].
  destruct (ivl r =? 0); [intros [= <-]; auto|].
  destruct (qty r =? 0); [intros [= <-]; auto|discriminate].
Qed.
Lemma is_valid_None r : is_valid r = None -> 0 < ivl r /\ qty r <> 0.
Proof.
  unfold is_valid. destruct (Z.ltb_spec (ivl r) 0); [discriminate|].
  destruct (Z.eqb_spec (ivl r) 0); [discriminate|].
  destruct (Z.eqb_spec (qty r) 0); [discriminate|]. lia.
Qed.

(* recalculateQuantity, literally (no hypothesis): exact integers, truncated quotient, IsUint64 *)
Lemma recalculateQuantity_spec w q m i :
  gen_recalculateQuantity w q m i =
  (w, if big_is_uint64 (Z.quot (Z.of_N q * m) i) then (Z.to_N (Z.quot (Z.of_N q * m) i), None)
      else (0%N, Some ErrConvertedQuantityUnrepresentable)).
Proof.
  unfold gen_recalculateQuantity. cbn.
  destruct (big_is_uint64 (Z.quot (Z.of_N q * m) i)); reflexivity.
Qed.

(* recalculateQuantity where Recalculate calls it: minimum >= 0 (in fact > 0), Interval > 0 *)
Lemma recalculateQuantity_model w q m i :
  0 <= q -> 0 <= m -> 0 < i ->
  gen_recalculateQuantity w (Z.to_N q) m i =
  (w, if q * m / i <=? max_u64 then (Z.to_N (q * m / i), None)
      else (0%N, Some ErrConvertedQuantityUnrepresentable)).
Proof.
  intros Hq Hm Hi. rewrite recalculateQuantity_spec. rewrite Z2N.id by exact Hq.
  destruct (quot_conv q m i Hq Hm Hi) as [-> Hnn].
  unfold big_is_uint64, max_u64.
  replace (0 <=? q * m / i) with true by (symmetry; apply Z.leb_le; exact Hnn).
  reflexivity.
Qed.

(* Rate.Recalculate under the weakest natural hypotheses: the quantity is a natural number and the interval does not
   exceed MaxInt64 (a negative interval is rejected before uint64(Interval) is evaluated; nothing is asked of minimum) *)
Lemma Recalculate_gen w r m :
  ivl r <= max_i64 -> 0 <= qty r ->
  gen_Recalculate w (conc r) m = (w, img (recalculate r m)).
Proof.
  intros Hi Hq. unfold gen_Recalculate, recalculate. cbn.
  rewrite (IsValid_gen w r Hq).
  destruct (is_valid r) as [e|] eqn:Hv; cbn; [reflexivity|].
  apply is_valid_None in Hv. destruct Hv as [Hipos Hqne].
  destruct (Z.ltb_spec m 0) as [Hm|Hm]; cbn; [reflexivity|].
  unfold conc at 1 2; cbn [Rate_Interval Rate_Quantity].
  rewrite (interval_conv (ivl r) (qty r)) by lia.
  destruct (negb (ivl r / qty r =? 0) && (m <=? ivl r / qty r)); cbn; [reflexivity|].
  destruct (m =? 0); cbn; [reflexivity|].
  unfold conc; cbn [Rate_Interval Rate_Quantity].
  rewrite (recalculateQuantity_model w (qty r) m (ivl r) Hq Hm Hipos).
  destruct (qty r * m / ivl r <=? max_u64); cbn; reflexivity.
Qed.

(* the hypothesis on the interval is needed: for an interval of 2^63 + 2^62 (not an int64) the conversion
   time.Duration(uint64(Interval)/Quantity) wraps in the generated code and does not in the model *)
Example Recalculate_interval_bound_needed :
  let r := {| ivl := 13835058055282163712; qty := 1 |} in
  gen_Recalculate 0 (conc r) 1 = (0%nat, (mk_Rate 1 0%N, None)) /\
  recalculate r 1 = inl {| ivl := 13835058055282163712; qty := 1 |}.
Proof. split; vm_compute; reflexivity. Qed.

(* ==== main tie theorems ==== *)

(* Rate.IsValid (GenRate.v) = RateConv.is_valid *)
Theorem tie_IsValid w r m :
  in_range r m -> gen_IsValid w (conc r) = (w, option_map conv (is_valid r)).
Proof. intros (_ & (Hq & _) & _). now apply IsValid_gen. Qed.

(* read from the generated side: for every Go value of type Rate *)
Theorem tie_IsValid_abs w g :
  go_rate g -> gen_IsValid w g = (w, option_map conv (is_valid (absr g))).
Proof.
  intros Hg. rewrite <- (conc_absr g) at 1.
  apply (tie_IsValid w (absr g) 0), in_range_absr; [exact Hg|].
  unfold i_range. change i_half with 9223372036854775808. lia.
Qed.

(* Rate.Recalculate = RateConv.recalculate; an error comes with the zero Rate (img) *)
Theorem tie_Recalculate w r m :
  in_range r m -> gen_Recalculate w (conc r) m = (w, img (recalculate r m)).
Proof. intros ((_ & Hi) & (Hq & _) & _). now apply Recalculate_gen. Qed.

Theorem tie_Recalculate_abs w g m :
  go_rate g -> i_range m -> gen_Recalculate w g m = (w, img (recalculate (absr g) m)).
Proof.
  intros Hg Hm. rewrite <- (conc_absr g) at 1.
  apply tie_Recalculate, in_range_absr; assumption.
Qed.

(* "an error comes with the zero Rate", stated on the generated function alone: no hypothesis at all *)
Theorem Recalculate_error_zero_rate w g m w' g' e :
  gen_Recalculate w g m = (w', (g', Some e)) -> g' = zero_Rate.
Proof.
  unfold gen_Recalculate. cbn.
  destruct (gen_IsValid w g) as [w1 [e1|]]; cbn; [intros [= _ <- _]; reflexivity|].
  destruct (m <? 0); cbn; [intros [= _ <- _]; reflexivity|].
  destruct (negb _ && _); cbn; [discriminate|].
  destruct (m =? 0); cbn; [intros [= _ <- _]; reflexivity|].
  destruct (gen_recalculateQuantity _ _ _ _) as [w2 [q [e2|]]]; cbn; [intros [= _ <- _]; reflexivity|discriminate].
Qed.

(* Rate.Optimize = RateConv.optimize: the literal 10000000 that go/types computed for OptimizationInterval is
   RateConv.optimization_interval (which ConstsTieLimit.v ties to the constant expression in consts.go) *)
Theorem tie_Optimize w r :
  in_range r optimization_interval -> gen_Optimize w (conc r) = (w, img (optimize r)).
Proof.
  intros H. unfold gen_Optimize, optimize. cbn.
  change 10000000 with optimization_interval.
  rewrite (tie_Recalculate w r optimization_interval H).
  destruct (img (recalculate r optimization_interval)) as [g e]. reflexivity.
Qed.

(* Rate.Flatten = RateConv.flatten *)
Theorem tie_Flatten w r :
  in_range r 0 -> gen_Flatten w (conc r) = (w, img (flatten r)).
Proof.
  intros H. unfold gen_Flatten, flatten. cbn.
  rewrite (tie_Recalculate w r 0 H).
  destruct (img (recalculate r 0)) as [g e]. reflexivity.
Qed.

(* ------------------------------------------------------------------ the theorems are not vacuous *)

Definition i_range_dec (z : Z) : bool := (- 9223372036854775808 <=? z) && (z <? 9223372036854775808).
Lemma in_range_intro i q m :
  i_range_dec i && ((0 <=? q) && (q <=? max_u64)) && i_range_dec m = true -> in_range {| ivl := i; qty := q |} m.
Proof.
  unfold i_range_dec, in_range, max_i64, max_u64; cbn. rewrite !andb_true_iff, !Z.leb_le, !Z.ltb_lt. lia.
Qed.

(* instantiate a tie theorem, then evaluate the model side *)
Ltac by_tie t := etransitivity; [apply t; apply in_range_intro; reflexivity | vm_compute; reflexivity].
Ltac splits := repeat match goal with |- _ /\ _ => split end.

(* 1s / 3000 with a minimum of 1ms: 3 per millisecond *)
Example ex_IsValid :
  gen_IsValid 7 (mk_Rate 1000000000 3000) = (7%nat, None) /\
  gen_IsValid 7 (mk_Rate 1000000000 0) = (7%nat, Some ErrQuantityZero) /\
  gen_IsValid 7 (mk_Rate (-5) 0) = (7%nat, Some ErrIntervalNegative).
Proof.
  splits.
  - by_tie (tie_IsValid 7 {| ivl := 1000000000; qty := 3000 |} 0).
  - by_tie (tie_IsValid 7 {| ivl := 1000000000; qty := 0 |} 0).
  - by_tie (tie_IsValid 7 {| ivl := -5; qty := 0 |} 0).
Qed.

Example ex_Recalculate :
  (* the quantity branch *)
  gen_Recalculate 7 (mk_Rate 1000000000 3000) 1000000 = (7%nat, (mk_Rate 1000000 3, None)) /\
  (* the interval branch *)
  gen_Recalculate 7 (mk_Rate 1000000000 3) 1000000 = (7%nat, (mk_Rate 333333333 1, None)) /\
  (* errors, each with the zero Rate *)
  gen_Recalculate 7 (mk_Rate 1000000000 3) (-1) = (7%nat, (zero_Rate, Some ErrMinimumIntervalNegative)) /\
  gen_Recalculate 7 (mk_Rate 3 1000) 0 = (7%nat, (zero_Rate, Some ErrConvertedIntervalZero)) /\
  gen_Recalculate 7 (mk_Rate 1 18446744073709551615) 2 =
    (7%nat, (zero_Rate, Some ErrConvertedQuantityUnrepresentable)) /\
  gen_Recalculate 7 (mk_Rate (-9223372036854775808) 2) 5 = (7%nat, (zero_Rate, Some ErrIntervalNegative)).
Proof.
  splits.
  - by_tie (tie_Recalculate 7 {| ivl := 1000000000; qty := 3000 |} 1000000).
  - by_tie (tie_Recalculate 7 {| ivl := 1000000000; qty := 3 |} 1000000).
  - by_tie (tie_Recalculate 7 {| ivl := 1000000000; qty := 3 |} (-1)).
  - by_tie (tie_Recalculate 7 {| ivl := 3; qty := 1000 |} 0).
  - by_tie (tie_Recalculate 7 {| ivl := 1; qty := 18446744073709551615 |} 2).
  - by_tie (tie_Recalculate 7 {| ivl := -9223372036854775808; qty := 2 |} 5).
Qed.

Example ex_Recalculate_abs :
  gen_Recalculate 7 (mk_Rate 9223372036854775807 18446744073709551615) 9223372036854775807 =
  (7%nat, (mk_Rate 9223372036854775807 18446744073709551615, None)).
Proof.
  rewrite tie_Recalculate_abs; [reflexivity| |]; unfold go_rate, i_range; cbn;
    change i_half with 9223372036854775808; change u_modulus with 18446744073709551616%N; lia.
Qed.

Example ex_Optimize :
  gen_Optimize 7 (mk_Rate 1000000000 3000) = (7%nat, (mk_Rate 10000000 30, None)) /\
  gen_Optimize 7 (mk_Rate 1000000000 3) = (7%nat, (mk_Rate 333333333 1, None)).
Proof.
  split.
  - by_tie (tie_Optimize 7 {| ivl := 1000000000; qty := 3000 |}).
  - by_tie (tie_Optimize 7 {| ivl := 1000000000; qty := 3 |}).
Qed.

Example ex_Flatten :
  gen_Flatten 7 (mk_Rate 1000000000 3000) = (7%nat, (mk_Rate 333333 1, None)) /\
  gen_Flatten 7 (mk_Rate 3 1000) = (7%nat, (zero_Rate, Some ErrConvertedIntervalZero)).
Proof.
  split.
  - by_tie (tie_Flatten 7 {| ivl := 1000000000; qty := 3000 |}).
  - by_tie (tie_Flatten 7 {| ivl := 3; qty := 1000 |}).
Qed.

Print Assumptions tie_IsValid.
Print Assumptions tie_IsValid_abs.
Print Assumptions tie_Recalculate.
Print Assumptions tie_Recalculate_abs.
Print Assumptions Recalculate_error_zero_rate.
Print Assumptions tie_Optimize.
Print Assumptions tie_Flatten.
