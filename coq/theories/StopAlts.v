(* Every blocking point of the v1 discipline goroutines offers a stop alternative -- decided over the table of facts that
   tool/main.go (blockfacts) regenerates from the Go source (BlockFacts.v).

   The Coq models of priority/priority.go, priority/simple.go and join/join.go assume that wherever a library goroutine can
   block, Stop() (`<-X.breaker.IsBreaked()`) and cancellation (`<-X.opts.Ctx.Done()`) are among the things it waits for.  Here
   that assumption is tied to the source: for every function reachable (through the call facts) from a goroutine entry, every
   potentially blocking operation is
     - a select with a `default:` (never blocks), or
     - a select whose comm clauses contain a receive from EVERY stop alternative of that goroutine, or
     - a go statement (does not block), or
     - listed, together with the function it occurs in, in an explicit exception list (justified where the list is defined).
   A plain `<-ch` / `ch <- v` / `for range ch` / unclassified range / blocking call is never acceptable by itself.

   Build (in this directory):
     coqc -Q . Cqos BlockTypes.v && coqc -Q . Cqos BlockFacts.v && coqc -Q . Cqos StopAlts.v *)
From Coq Require Import List String Bool Arith.
From Cqos Require Import BlockTypes BlockFacts.
Import ListNotations.
Open Scope string_scope.

(* ------------------------------------------------------------------------------------------------------------------------- *)
(* boolean equalities *)

Definition dir_eqb (a b : dir) : bool :=
  match a, b with CRecv, CRecv => true | CSend, CSend => true | _, _ => false end.

Definition comm_eqb (a b : comm) : bool := dir_eqb (fst a) (fst b) && String.eqb (snd a) (snd b).

Fixpoint list_eqb {A} (eqb : A -> A -> bool) (l1 l2 : list A) : bool :=
  match l1, l2 with
  | [], [] => true
  | x :: r1, y :: r2 => eqb x y && list_eqb eqb r1 r2
  | _, _ => false
  end.

Definition op_eqb (a b : op) : bool :=
  match a, b with
  | BSelect c1 d1, BSelect c2 d2 => list_eqb comm_eqb c1 c2 && Bool.eqb d1 d2
  | BRecv x, BRecv y => String.eqb x y
  | BSend x, BSend y => String.eqb x y
  | BRange x, BRange y => String.eqb x y
  | BCall x a1, BCall y a2 => String.eqb x y && String.eqb a1 a2
  | BGo x, BGo y => String.eqb x y
  | _, _ => false
  end.

Lemma dir_eqb_eq a b : dir_eqb a b = true -> a = b.
Proof. destruct a, b; simpl; congruence. Qed.

Lemma comm_eqb_eq a b : comm_eqb a b = true -> a = b.
Proof.
  destruct a as [d1 s1], b as [d2 s2]. unfold comm_eqb. simpl. intros H. apply andb_true_iff in H. destruct H as [H1 H2].
  apply dir_eqb_eq in H1. apply String.eqb_eq in H2. congruence.
Qed.

Lemma list_eqb_eq {A} (eqb : A -> A -> bool) (Heq : forall a b, eqb a b = true -> a = b) l1 :
  forall l2, list_eqb eqb l1 l2 = true -> l1 = l2.
Proof.
  induction l1 as [|x r1 IH]; intros [|y r2]; simpl; try congruence. intros H. apply andb_true_iff in H. destruct H as [H1 H2].
  apply Heq in H1. apply IH in H2. congruence.
Qed.

Lemma op_eqb_eq a b : op_eqb a b = true -> a = b.
Proof.
  destruct a, b; simpl; try congruence; intros H.
  - apply andb_true_iff in H. destruct H as [H1 H2]. apply (list_eqb_eq comm_eqb comm_eqb_eq) in H1. apply Bool.eqb_prop in H2. congruence.
  - apply String.eqb_eq in H. congruence.
  - apply String.eqb_eq in H. congruence.
  - apply String.eqb_eq in H. congruence.
  - apply andb_true_iff in H. destruct H as [H1 H2]. apply String.eqb_eq in H1. apply String.eqb_eq in H2. congruence.
  - apply String.eqb_eq in H. congruence.
Qed.

Fixpoint mem (x : string) (l : list string) : bool :=
  match l with [] => false | y :: r => String.eqb x y || mem x r end.

Lemma mem_In x l : mem x l = true <-> In x l.
Proof.
  induction l as [|y r IH]; simpl.
  - split; [discriminate|tauto].
  - rewrite orb_true_iff, IH, String.eqb_eq. split; intros [H|H]; auto.
Qed.

(* ------------------------------------------------------------------------------------------------------------------------- *)
(* lookup, reachability through the call facts *)

Definition find_pkg (fs : list package) (path : string) : option package :=
  find (fun p => String.eqb (pkg_path p) path) fs.

Definition find_func (p : package) (n : string) : option func :=
  find (fun f => String.eqb (fn_name f) n) (pkg_funcs p).

Definition calls_of (p : package) (n : string) : list string :=
  match find_func p n with Some f => fn_calls f | None => [] end.

Definition gos_of (p : package) (n : string) : list string :=
  match find_func p n with Some f => fn_gos f | None => [] end.

Fixpoint nodupb (l : list string) : bool :=
  match l with [] => true | x :: r => negb (mem x r) && nodupb r end.

Lemma nodupb_NoDup l : nodupb l = true -> NoDup l.
Proof.
  induction l as [|x r IH]; simpl; intros H; constructor; apply andb_true_iff in H; destruct H as [H1 H2]; auto.
  intros Hin. apply mem_In in Hin. rewrite Hin in H1. discriminate.
Qed.

Definition names (p : package) : list string := map fn_name (pkg_funcs p).

(* with distinct names the lookup by name finds every function of the table (none is shadowed, hence none escapes the check) *)
Lemma find_func_In p f : NoDup (names p) -> In f (pkg_funcs p) -> find_func p (fn_name f) = Some f.
Proof.
  unfold names, find_func. induction (pkg_funcs p) as [|g r IH]; simpl; intros Hnd Hin; [tauto|].
  inversion Hnd as [|? ? Hnotin Hnd']; subst. destruct Hin as [->|Hin].
  - rewrite String.eqb_refl. reflexivity.
  - destruct (String.eqb (fn_name g) (fn_name f)) eqn:E.
    + apply String.eqb_eq in E. exfalso. apply Hnotin. rewrite E. apply in_map. exact Hin.
    + auto.
Qed.

(* the functions reachable from the work list: depth first, with fuel; [closed] below certifies the result *)
Fixpoint reach (p : package) (fuel : nat) (work seen : list string) : list string :=
  match fuel with
  | O => seen
  | S f =>
      match work with
      | [] => seen
      | n :: rest =>
          if mem n seen then reach p f rest seen
          else reach p f (calls_of p n ++ rest) (n :: seen)
      end
  end.

Definition fuel_of (p : package) : nat :=
  let k := List.length (pkg_funcs p) in (k * k + k + 8)%nat.

Definition reachable (p : package) (entry : string) : list string := reach p (fuel_of p) [entry] [].

(* soundness of [reachable] is not argued from the fuel: the checkers test, by computation, that the computed set contains the
   entry and is closed under the call facts; then it contains everything the inductive relation [reaches] reaches *)
Definition closed (p : package) (rs : list string) : bool :=
  forallb (fun n => forallb (fun c => mem c rs) (calls_of p n)) rs.

Inductive reaches (p : package) (a : string) : string -> Prop :=
| reaches_refl : reaches p a a
| reaches_step b c : reaches p a b -> In c (calls_of p b) -> reaches p a c.

Lemma closed_sound p rs a :
  mem a rs = true -> closed p rs = true -> forall b, reaches p a b -> In b rs.
Proof.
  intros Ha Hc b Hr. induction Hr as [|b c Hr IH Hin].
  - apply mem_In. exact Ha.
  - unfold closed in Hc. rewrite forallb_forall in Hc. specialize (Hc b IH). rewrite forallb_forall in Hc.
    apply mem_In. apply Hc. exact Hin.
Qed.

(* ------------------------------------------------------------------------------------------------------------------------- *)
(* the rule *)

Definition has_recv (e : string) (cs : list comm) : bool :=
  existsb (fun c => comm_eqb c (CRecv, e)) cs.

Definition is_nil {A} (l : list A) : bool := match l with [] => true | _ => false end.

(* alts: the stop alternatives of the goroutine (channel expressions); a goroutine without any gets no select accepted except
   one with a default *)
Definition stoppable_by (alts : list string) (o : op) : bool :=
  match o with
  | BSelect cs d => d || (negb (is_nil alts) && forallb (fun a => has_recv a cs) alts)
  | BGo _ => true
  | _ => false
  end.

Inductive stoppable (alts : list string) : op -> Prop :=
| st_default cs : stoppable alts (BSelect cs true)
| st_alts cs d : alts <> [] -> (forall a, In a alts -> In (CRecv, a) cs) -> stoppable alts (BSelect cs d)
| st_go c : stoppable alts (BGo c).

Lemma has_recv_In e cs : has_recv e cs = true -> In (CRecv, e) cs.
Proof.
  unfold has_recv. rewrite existsb_exists. intros [c [Hin Heq]]. apply comm_eqb_eq in Heq. subst. exact Hin.
Qed.

Lemma stoppable_by_sound alts o : stoppable_by alts o = true -> stoppable alts o.
Proof.
  destruct o; simpl; try discriminate.
  - destruct has_default; simpl; [intros _; apply st_default|].
    intros H. apply andb_true_iff in H. destruct H as [Hn Hall]. apply st_alts.
    + destruct alts; [discriminate|congruence].
    + intros a Ha. rewrite forallb_forall in Hall. apply has_recv_In. auto.
  - intros _. apply st_go.
Qed.

Definition exceptions := list (string * op).

Definition exc_mem (n : string) (o : op) (exc : exceptions) : bool :=
  existsb (fun e => String.eqb (fst e) n && op_eqb (snd e) o) exc.

Lemma exc_mem_In n o exc : exc_mem n o exc = true -> In (n, o) exc.
Proof.
  unfold exc_mem. rewrite existsb_exists. intros [[n' o'] [Hin H]]. simpl in H. apply andb_true_iff in H. destruct H as [H1 H2].
  apply String.eqb_eq in H1. apply op_eqb_eq in H2. subst. exact Hin.
Qed.

Definition op_ok (alts : list string) (exc : exceptions) (n : string) (o : op) : bool :=
  stoppable_by alts o || exc_mem n o exc.

(* the goroutine that starts at [entry]: every operation of every reachable function is stoppable or excepted *)
Definition check_entry (p : package) (entry : string) (alts : list string) (exc : exceptions) : bool :=
  let rs := reachable p entry in
  nodupb (names p) && mem entry rs && closed p rs &&
  forallb (fun n => match find_func p n with
                    | Some f => forallb (op_ok alts exc n) (fn_ops f)
                    | None => false
                    end) rs.

(* readable statements *)
Definition entry_stoppable (p : package) (entry : string) (alts : list string) (exc : exceptions) : Prop :=
  forall n, reaches p entry n ->
  exists f, find_func p n = Some f /\ forall o, In o (fn_ops f) -> stoppable alts o \/ In (n, o) exc.

Lemma check_entry_sound p entry alts exc :
  check_entry p entry alts exc = true -> entry_stoppable p entry alts exc.
Proof.
  unfold check_entry. intros H. destruct (andb_prop _ _ H) as [H1 Hall]. destruct (andb_prop _ _ H1) as [H2 Hclosed].
  destruct (andb_prop _ _ H2) as [_ Hentry].
  intros n Hr. pose proof (closed_sound p _ entry Hentry Hclosed n Hr) as Hin.
  rewrite forallb_forall in Hall. specialize (Hall n Hin).
  destruct (find_func p n) as [f|]; [|discriminate]. exists f. split; [reflexivity|].
  intros o Ho. rewrite forallb_forall in Hall. specialize (Hall o Ho). unfold op_ok in Hall.
  apply orb_true_iff in Hall. destruct Hall as [Hs|He].
  - left. apply stoppable_by_sound. exact Hs.
  - right. apply exc_mem_In. exact He.
Qed.

(* the same over the computed list and the functions of the table *)
Lemma check_entry_list p entry alts exc :
  check_entry p entry alts exc = true ->
  forall f o, In f (pkg_funcs p) -> In (fn_name f) (reachable p entry) -> In o (fn_ops f) ->
    stoppable alts o \/ In (fn_name f, o) exc.
Proof.
  unfold check_entry. intros H. destruct (andb_prop _ _ H) as [H1 Hall]. destruct (andb_prop _ _ H1) as [H2 _].
  destruct (andb_prop _ _ H2) as [Hnd _]. intros f o Hf Hin Ho.
  rewrite forallb_forall in Hall. specialize (Hall _ Hin).
  rewrite (find_func_In p f (nodupb_NoDup _ Hnd) Hf) in Hall.
  rewrite forallb_forall in Hall. specialize (Hall o Ho). unfold op_ok in Hall.
  apply orb_true_iff in Hall. destruct Hall as [Hs|He].
  - left. apply stoppable_by_sound. exact Hs.
  - right. apply exc_mem_In. exact He.
Qed.

(* and: the computed list is exactly sound for the inductive relation *)
Lemma check_entry_reachable p entry alts exc :
  check_entry p entry alts exc = true -> forall n, reaches p entry n -> In n (reachable p entry).
Proof.
  unfold check_entry. intros H. destruct (andb_prop _ _ H) as [H1 _]. destruct (andb_prop _ _ H1) as [H2 Hclosed].
  destruct (andb_prop _ _ H2) as [_ Hentry]. intros n Hr. exact (closed_sound p _ entry Hentry Hclosed n Hr).
Qed.

(* ------------------------------------------------------------------------------------------------------------------------- *)
(* side conditions of the exceptions, read off the extra facts *)

Definition ends_with (suf s : string) : bool :=
  let k := String.length suf in
  let n := String.length s in
  Nat.leb k n && String.eqb (substring (n - k) k s) suf.

(* every send (plain or as a comm clause of a select) of the package to a channel expression ending in [suf]:
   (function, channel expression) *)
Definition sends_of_op (o : op) : list string :=
  match o with
  | BSend x => [x]
  | BSelect cs _ => map snd (filter (fun c => dir_eqb (fst c) CSend) cs)
  | _ => []
  end.

Definition sends_matching (p : package) (suf : string) : list (string * string) :=
  flat_map (fun f => map (fun x => (fn_name f, x)) (filter (ends_with suf) (flat_map sends_of_op (fn_ops f)))) (pkg_funcs p).

Definition makes_of (p : package) (target : string) : list (string * string * string) :=
  filter (fun m => String.eqb (snd (fst m)) target) (pkg_makes p).

Definition pair_eqb (a b : string * string) : bool := String.eqb (fst a) (fst b) && String.eqb (snd a) (snd b).
Definition triple_eqb (a b : string * string * string) : bool := pair_eqb (fst a) (fst b) && String.eqb (snd a) (snd b).

Definition has_const (p : package) (name value : string) : bool :=
  existsb (fun c => pair_eqb c (name, value)) (pkg_consts p).

(* the goroutine [entry] is started by exactly one go statement of the package and is never called as a plain function *)
Definition started_once (p : package) (entry : string) : bool :=
  Nat.eqb (List.length (filter (String.eqb entry) (flat_map fn_gos (pkg_funcs p)))) 1 &&
  negb (existsb (fun f => mem entry (fn_calls f)) (pkg_funcs p)).

(* the goroutines started (transitively) by the goroutines [entries] are among [entries]: none is overlooked *)
Definition gos_within (p : package) (entries : list string) : bool :=
  forallb (fun e => forallb (fun n => forallb (fun g => mem g entries) (gos_of p n)) (reachable p e)) entries.

(* ------------------------------------------------------------------------------------------------------------------------- *)
(* 1. package priority, the discipline goroutine Discipline.main

   Rule: every operation of every function reachable from Discipline.main is a select with a default, or a select with BOTH
   `<-dsc.breaker.IsBreaked()` and `<-dsc.opts.Ctx.Done()`, or one of:

   - Discipline.loop: time.Sleep(defaultIdleDelay).  Bounded: the argument is the package constant defaultIdleDelay, checked
     below to be `1 * time.Nanosecond`; the sleep is followed by the loop's first select, which has the stop alternatives.
   - Discipline.main: dsc.interrupter.Stop() (deferred).  dsc.interrupter is a *time.Ticker; Ticker.Stop does not block
     (package time: "Stop turns off a ticker", no waiting, no channel operation).
   - Discipline.main: `dsc.err <- err`, a plain send.  Never blocks: dsc.err is created by `make(chan error, 1)` in New (checked:
     the only make assigned to a field `err` in New is that one), this is the only send of the package to `dsc.err` (checked:
     the sends to channels `*.err` are exactly Discipline.main/dsc.err and Simple.main/smpl.err), and Discipline.main runs once
     per discipline (checked: started by exactly one go statement, never called).  Read off the source, not checked: the send is
     not inside a loop of main, and nobody outside the package can send (Err() returns a receive-only channel).
   Not operations in this sense, hence assumptions of the model rather than facts checked here: calls of the user supplied
   Divider (a callback of the discipline goroutine; a Divider that blocks blocks Stop), busy loops (D3 was one: that is the
   Coq model's subject, not this checker's). *)

Definition prio_alts : list string := ["dsc.breaker.IsBreaked()"; "dsc.opts.Ctx.Done()"].

Definition prio_exceptions : exceptions :=
  [ ("Discipline.loop", BCall "time.Sleep" "defaultIdleDelay");
    ("Discipline.main", BCall "dsc.interrupter.Stop" "");
    ("Discipline.main", BSend "dsc.err") ].

Definition err_channels_ok (p : package) : bool :=
  list_eqb pair_eqb (sends_matching p ".err") [("Discipline.main", "dsc.err"); ("Simple.main", "smpl.err")] &&
  list_eqb triple_eqb (makes_of p "err") [("New", "err", "make(chan error, 1)"); ("NewSimple", "err", "make(chan error, 1)")] &&
  started_once p "Discipline.main" && started_once p "Simple.main".

Definition check_v1_priority (fs : list package) : bool :=
  match find_pkg fs "priority" with
  | Some p =>
      check_entry p "Discipline.main" prio_alts prio_exceptions &&
      has_const p "defaultIdleDelay" "1 * time.Nanosecond" &&
      err_channels_ok p &&
      gos_within p ["Discipline.main"]
  | None => false
  end.

Theorem v1_priority_stoppable : check_v1_priority facts = true.
Proof. vm_compute; reflexivity. Qed.

Lemma check_v1_priority_sound fs :
  check_v1_priority fs = true ->
  exists p, find_pkg fs "priority" = Some p /\
    entry_stoppable p "Discipline.main" prio_alts prio_exceptions /\
    (forall f o, In f (pkg_funcs p) -> In (fn_name f) (reachable p "Discipline.main") -> In o (fn_ops f) ->
       stoppable prio_alts o \/ In (fn_name f, o) prio_exceptions).
Proof.
  unfold check_v1_priority. destruct (find_pkg fs "priority") as [p|]; [|discriminate].
  intros H. destruct (andb_prop _ _ H) as [H1 _]. destruct (andb_prop _ _ H1) as [H2 _]. destruct (andb_prop _ _ H2) as [H3 _].
  exists p. split; [reflexivity|]. split; [apply check_entry_sound|apply check_entry_list]; exact H3.
Qed.

(* the readable statement *)
Corollary v1_priority_stoppable_prop :
  exists p, find_pkg facts "priority" = Some p /\
    entry_stoppable p "Discipline.main" prio_alts prio_exceptions /\
    (forall f o, In f (pkg_funcs p) -> In (fn_name f) (reachable p "Discipline.main") -> In o (fn_ops f) ->
       stoppable prio_alts o \/ In (fn_name f, o) prio_exceptions).
Proof. exact (check_v1_priority_sound facts v1_priority_stoppable). Qed.

(* ------------------------------------------------------------------------------------------------------------------------- *)
(* 2. package join, the join goroutine Discipline.main

   Rule: every operation of every function reachable from Discipline.main is a select with a default, or a select with BOTH
   `<-dsc.breaker.IsBreaked()` and `<-dsc.opts.Ctx.Done()` (join/join.go: loop, loopUntimeouted, and both selects of send), or:

   - Discipline.loop: ticker.Stop() (deferred).  ticker is the local *time.Ticker made by time.NewTicker in loop; Ticker.Stop
     does not block. *)

Definition join_alts : list string := ["dsc.breaker.IsBreaked()"; "dsc.opts.Ctx.Done()"].

Definition join_exceptions : exceptions :=
  [ ("Discipline.loop", BCall "ticker.Stop" "") ].

Definition check_v1_join (fs : list package) : bool :=
  match find_pkg fs "join" with
  | Some p =>
      check_entry p "Discipline.main" join_alts join_exceptions &&
      started_once p "Discipline.main" &&
      gos_within p ["Discipline.main"]
  | None => false
  end.

Theorem v1_join_stoppable : check_v1_join facts = true.
Proof. vm_compute; reflexivity. Qed.

Lemma check_v1_join_sound fs :
  check_v1_join fs = true ->
  exists p, find_pkg fs "join" = Some p /\
    entry_stoppable p "Discipline.main" join_alts join_exceptions /\
    (forall f o, In f (pkg_funcs p) -> In (fn_name f) (reachable p "Discipline.main") -> In o (fn_ops f) ->
       stoppable join_alts o \/ In (fn_name f, o) join_exceptions).
Proof.
  unfold check_v1_join. destruct (find_pkg fs "join") as [p|]; [|discriminate].
  intros H. destruct (andb_prop _ _ H) as [H1 _]. destruct (andb_prop _ _ H1) as [H2 _].
  exists p. split; [reflexivity|]. split; [apply check_entry_sound|apply check_entry_list]; exact H2.
Qed.

Corollary v1_join_stoppable_prop :
  exists p, find_pkg facts "join" = Some p /\
    entry_stoppable p "Discipline.main" join_alts join_exceptions /\
    (forall f o, In f (pkg_funcs p) -> In (fn_name f) (reachable p "Discipline.main") -> In o (fn_ops f) ->
       stoppable join_alts o \/ In (fn_name f, o) join_exceptions).
Proof. exact (check_v1_join_sound facts v1_join_stoppable). Qed.

(* ------------------------------------------------------------------------------------------------------------------------- *)
(* 3. package priority, the goroutines of Simple

   Three goroutine entries (checked: the go statements reachable from them start nothing else):

   Simple.main (started by NewSimple; calls Simple.gracefulStop).  Stop alternatives: `<-smpl.breaker.IsBreaked()` and
   `<-smpl.opts.Ctx.Done()`; every select must have both (or a default).  Exceptions, all in the deferred tail of main, which
   runs only after main's select has returned, i.e. when the discipline is terminating anyway:
   - smpl.priority.Stop(): Stop of the inner prioritization discipline = breaker.Break(): closes the channel that
     dsc.breaker.IsBreaked() returns and waits for the inner Discipline.main to call Complete().  Bounded by theorem 1
     (check_v1_priority is a conjunct of this check).  The inner discipline gets no Ctx (context.Background), so this call is
     the only way it is stopped, and it is reached from every branch of main's select.
   - smpl.wg.Wait(): waits for the handler goroutines.  It is deferred BEFORE `defer cancel()` and therefore runs after
     cancel() (read off the source; the facts do not carry defer order).  Bounded because every blocking operation of
     Simple.handler is a select with `<-ctx.Done()` (second conjunct below, no exceptions), ctx being the context that cancel()
     cancels -- and under the documented contract of the callback ("Function should be interrupted when context is canceled"):
     smpl.opts.Handle(ctx, item) is a user callback, not an operation in the sense of these facts.
   - `smpl.err <- err`: never blocks; smpl.err is `make(chan error, 1)` in NewSimple, this is the only send to it, Simple.main
     runs once (err_channels_ok, as for dsc.err).

   Simple.handler (started HandlersQuantity times by Simple.main).  Stop alternative: `<-ctx.Done()`; no exceptions.

   Simple.gracefulStop.func1 (the helper started by Simple.gracefulStop; the translator makes the body of `go func() {...}()` a
   function of its own).  It has no stop alternative of its own; its only operation is excepted:
   - smpl.priority.GracefulStop() = graceful.Break() of the inner discipline: returns when the inner Discipline.main has
     completed (graceful.Complete() is deferred there).  Once Stop()/cancel has been requested, Simple.main leaves the select
     of gracefulStop (it has both stop alternatives next to `<-stopped`) and its deferred smpl.priority.Stop() terminates the
     inner discipline within bounded time (theorem 1); then this call returns.  Nobody waits for the helper (Simple.main does
     not: `stopped` is only read in that select), so it cannot delay Stop().
     The exception is keyed to the helper: calling smpl.priority.GracefulStop() from Simple.gracefulStop or Simple.main
     themselves (defect D5) is NOT excepted and fails the check. *)

Definition simple_main_alts : list string := ["smpl.breaker.IsBreaked()"; "smpl.opts.Ctx.Done()"].
Definition simple_handler_alts : list string := ["ctx.Done()"].
Definition simple_helper_alts : list string := [].

Definition simple_main_exceptions : exceptions :=
  [ ("Simple.main", BCall "smpl.priority.Stop" "");
    ("Simple.main", BCall "smpl.wg.Wait" "");
    ("Simple.main", BSend "smpl.err") ].

Definition simple_handler_exceptions : exceptions := [].

Definition simple_helper_exceptions : exceptions :=
  [ ("Simple.gracefulStop.func1", BCall "smpl.priority.GracefulStop" "") ].

Definition simple_entries : list string := ["Simple.main"; "Simple.handler"; "Simple.gracefulStop.func1"].

Definition check_v1_simple (fs : list package) : bool :=
  match find_pkg fs "priority" with
  | Some p =>
      check_entry p "Simple.main" simple_main_alts simple_main_exceptions &&
      check_entry p "Simple.handler" simple_handler_alts simple_handler_exceptions &&
      check_entry p "Simple.gracefulStop.func1" simple_helper_alts simple_helper_exceptions &&
      gos_within p simple_entries &&
      err_channels_ok p &&
      check_v1_priority fs
  | None => false
  end.

Theorem v1_simple_stoppable : check_v1_simple facts = true.
Proof. vm_compute; reflexivity. Qed.

Definition simple_statement (p : package) : Prop :=
  entry_stoppable p "Simple.main" simple_main_alts simple_main_exceptions /\
  entry_stoppable p "Simple.handler" simple_handler_alts simple_handler_exceptions /\
  entry_stoppable p "Simple.gracefulStop.func1" simple_helper_alts simple_helper_exceptions /\
  entry_stoppable p "Discipline.main" prio_alts prio_exceptions /\
  (forall f o, In f (pkg_funcs p) -> In o (fn_ops f) ->
     (In (fn_name f) (reachable p "Simple.main") -> stoppable simple_main_alts o \/ In (fn_name f, o) simple_main_exceptions) /\
     (In (fn_name f) (reachable p "Simple.handler") -> stoppable simple_handler_alts o \/ In (fn_name f, o) simple_handler_exceptions) /\
     (In (fn_name f) (reachable p "Simple.gracefulStop.func1") -> stoppable simple_helper_alts o \/ In (fn_name f, o) simple_helper_exceptions)).

Lemma check_v1_simple_sound fs :
  check_v1_simple fs = true -> exists p, find_pkg fs "priority" = Some p /\ simple_statement p.
Proof.
  unfold check_v1_simple. destruct (find_pkg fs "priority") as [p|] eqn:Hp; [|discriminate].
  intros H. destruct (andb_prop _ _ H) as [H1 Hprio]. destruct (andb_prop _ _ H1) as [H2 _]. destruct (andb_prop _ _ H2) as [H3 _].
  destruct (andb_prop _ _ H3) as [H4 Hhelper]. destruct (andb_prop _ _ H4) as [Hmain Hhandler].
  exists p. split; [reflexivity|]. unfold simple_statement.
  split; [apply check_entry_sound; exact Hmain|].
  split; [apply check_entry_sound; exact Hhandler|].
  split; [apply check_entry_sound; exact Hhelper|].
  split.
  - destruct (check_v1_priority_sound fs Hprio) as [p' [Hp' [Hs _]]]. rewrite Hp in Hp'. inversion Hp'; subst. exact Hs.
  - intros f o Hf Ho. repeat split; intros Hin.
    + exact (check_entry_list _ _ _ _ Hmain f o Hf Hin Ho).
    + exact (check_entry_list _ _ _ _ Hhandler f o Hf Hin Ho).
    + exact (check_entry_list _ _ _ _ Hhelper f o Hf Hin Ho).
Qed.

Corollary v1_simple_stoppable_prop : exists p, find_pkg facts "priority" = Some p /\ simple_statement p.
Proof. exact (check_v1_simple_sound facts v1_simple_stoppable). Qed.

(* ------------------------------------------------------------------------------------------------------------------------- *)
(* Not a proof obligation, an inventory (printed at compile time): the potentially blocking operations reachable from the
   EXPORTED functions of the v1 packages that are not selects with a default.  These run in the caller's goroutine, not in a
   library goroutine; the three theorems above say nothing about them. *)
Definition caller_side (fs : list package) (path : string) : list (string * string * op) :=
  match find_pkg fs path with
  | Some p =>
      flat_map (fun f =>
        if fn_exported f then
          flat_map (fun n => match find_func p n with
                             | Some g => map (fun o => (fn_name f, n, o)) (filter (fun o => negb (stoppable_by [] o)) (fn_ops g))
                             | None => []
                             end) (rev (reachable p (fn_name f)))
        else []) (pkg_funcs p)
  | None => []
  end.

Eval vm_compute in (caller_side facts "priority").
Eval vm_compute in (caller_side facts "join").
