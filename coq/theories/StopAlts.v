(* Every blocking point of the v1 discipline goroutines offers a stop alternative -- decided over the table of facts that
   tool/main.go (blockfacts) regenerates from the Go source (BlockFacts.v).

   The Coq models of priority/priority.go, priority/simple.go and join/join.go assume that wherever a library goroutine can
   block, Stop() (`<-X.breaker.IsBreaked()`) and cancellation (`<-X.opts.Ctx.Done()`) are among the things it waits for.  Here
   that assumption is tied to the source: for every function reachable (through the call facts) from a goroutine entry, every
   potentially blocking operation is
     - a select with a `default:` (never blocks), or
     - a select whose comm clauses contain a receive from EVERY stop alternative of that goroutine, or
     - a go statement (does not block), or
     - listed in an explicit exception list (justified where the list is defined).
   A plain `<-ch` / `ch <- v` / `for range ch` / unclassified range / blocking call is never acceptable by itself.

   Nothing below names an unexported function or method.  What is relied upon: the package paths, the exported constructors
   (`New`, `NewSimple`), the expressions the operations are about (receiver and field names: `dsc.err`, `smpl.priority.Stop`,
   ...) and the constant `defaultIdleDelay`.
     - Goroutine entries are DERIVED from the facts: the discipline goroutine of a package is the target of the one and only go
       statement of its constructor ([ctor_goroutine]); the further goroutines of Simple are the go targets transitively
       reachable from that goroutine ([goroutines], certified by [gos_within]).
     - Exceptions are keyed by the OPERATION and a structural [place]: [Anywhere] in the goroutine, or [InEntry] = only in the
       entry function of a goroutine that is started by exactly one go statement of the package and never called.
   A behaviour preserving rename of an internal function (main -> run, loop -> serve, handler -> worker, ...) therefore leaves
   the three theorems valid; removing a stop alternative, or calling the inner GracefulStop inline (defect D5), does not.

   Build (in this directory):
     coqc -Q . Cqos BlockTypes.v && coqc -Q . Cqos BlockFacts.v && coqc -Q . Cqos StopAlts.v *)
From Coq Require Import List String Bool Arith.
From Cqos Require Import BlockTypes BlockFacts.
Import ListNotations.
Open Scope string_scope.

(* ------------------------------------------------------------------------------------------------------------------------- *)
(* boolean equalities *)

Definition dir_eqb (a b : dir) : bool :=
  match a, b with CRecv, CRecv => true | CSend, CSend => true | _, _ => false end.

Definition comm_eqb (a b : comm) : bool := dir_eqb (fst a) (fst b) && String.eqb (snd a) (snd b).

Fixpoint list_eqb {A} (eqb : A -> A -> bool) (l1 l2 : list A) : bool :=
  match l1, l2 with
  | [], [] => true
  | x :: r1, y :: r2 => eqb x y && list_eqb eqb r1 r2
  | _, _ => false
  end.

Definition op_eqb (a b : op) : bool :=
  match a, b with
  | BSelect c1 d1, BSelect c2 d2 => list_eqb comm_eqb c1 c2 && Bool.eqb d1 d2
  | BRecv x, BRecv y => String.eqb x y
  | BSend x, BSend y => String.eqb x y
  | BRange x, BRange y => String.eqb x y
  | BCall x a1, BCall y a2 => String.eqb x y && String.eqb a1 a2
  | BGo x, BGo y => String.eqb x y
  | _, _ => false
  end.

Lemma dir_eqb_eq a b : dir_eqb a b = true -> a = b.
Proof. destruct a, b; simpl; congruence. Qed.

Lemma comm_eqb_eq a b : comm_eqb a b = true -> a = b.
Proof.
  destruct a as [d1 s1], b as [d2 s2]. unfold comm_eqb. simpl. intros H. apply andb_true_iff in H. destruct H as [H1 H2].
  apply dir_eqb_eq in H1. apply String.eqb_eq in H2. congruence.
Qed.

Lemma list_eqb_eq {A} (eqb : A -> A -> bool) (Heq : forall a b, eqb a b = true -> a = b) l1 :
  forall l2, list_eqb eqb l1 l2 = true -> l1 = l2.
Proof.
  induction l1 as [|x r1 IH]; intros [|y r2]; simpl; try congruence. intros H. apply andb_true_iff in H. destruct H as [H1 H2].
  apply Heq in H1. apply IH in H2. congruence.
Qed.

Lemma op_eqb_eq a b : op_eqb a b = true -> a = b.
Proof.
  destruct a, b; simpl; try congruence; intros H.
  - apply andb_true_iff in H. destruct H as [H1 H2]. apply (list_eqb_eq comm_eqb comm_eqb_eq) in H1. apply Bool.eqb_prop in H2. congruence.
  - apply String.eqb_eq in H. congruence.
  - apply String.eqb_eq in H. congruence.
  - apply String.eqb_eq in H. congruence.
  - apply andb_true_iff in H. destruct H as [H1 H2]. apply String.eqb_eq in H1. apply String.eqb_eq in H2. congruence.
  - apply String.eqb_eq in H. congruence.
Qed.

Fixpoint mem (x : string) (l : list string) : bool :=
  match l with [] => false | y :: r => String.eqb x y || mem x r end.

Lemma mem_In x l : mem x l = true <-> In x l.
Proof.
  induction l as [|y r IH]; simpl.
  - split; [discriminate|tauto].
  - rewrite orb_true_iff, IH, String.eqb_eq. split; intros [H|H]; auto.
Qed.

(* ------------------------------------------------------------------------------------------------------------------------- *)
(* lookup, reachability through the call facts *)

Definition find_pkg (fs : list package) (path : string) : option package :=
  find (fun p => String.eqb (pkg_path p) path) fs.

Definition find_func (p : package) (n : string) : option func :=
  find (fun f => String.eqb (fn_name f) n) (pkg_funcs p).

Definition calls_of (p : package) (n : string) : list string :=
  match find_func p n with Some f => fn_calls f | None => [] end.

Definition gos_of (p : package) (n : string) : list string :=
  match find_func p n with Some f => fn_gos f | None => [] end.

Fixpoint nodupb (l : list string) : bool :=
  match l with [] => true | x :: r => negb (mem x r) && nodupb r end.

Lemma nodupb_NoDup l : nodupb l = true -> NoDup l.
Proof.
  induction l as [|x r IH]; simpl; intros H; constructor; apply andb_true_iff in H; destruct H as [H1 H2]; auto.
  intros Hin. apply mem_In in Hin. rewrite Hin in H1. discriminate.
Qed.

Definition names (p : package) : list string := map fn_name (pkg_funcs p).

(* with distinct names the lookup by name finds every function of the table (none is shadowed, hence none escapes the check) *)
Lemma find_func_In p f : NoDup (names p) -> In f (pkg_funcs p) -> find_func p (fn_name f) = Some f.
Proof.
  unfold names, find_func. induction (pkg_funcs p) as [|g r IH]; simpl; intros Hnd Hin; [tauto|].
  inversion Hnd as [|? ? Hnotin Hnd']; subst. destruct Hin as [->|Hin].
  - rewrite String.eqb_refl. reflexivity.
  - destruct (String.eqb (fn_name g) (fn_name f)) eqn:E.
    + apply String.eqb_eq in E. exfalso. apply Hnotin. rewrite E. apply in_map. exact Hin.
    + auto.
Qed.

(* the functions reachable from the work list: depth first, with fuel; [closed] below certifies the result *)
Fixpoint reach (p : package) (fuel : nat) (work seen : list string) : list string :=
  match fuel with
  | O => seen
  | S f =>
      match work with
      | [] => seen
      | n :: rest =>
          if mem n seen then reach p f rest seen
          else reach p f (calls_of p n ++ rest) (n :: seen)
      end
  end.

Definition fuel_of (p : package) : nat :=
  let k := List.length (pkg_funcs p) in (k * k + k + 8)%nat.

Definition reachable (p : package) (entry : string) : list string := reach p (fuel_of p) [entry] [].

(* soundness of [reachable] is not argued from the fuel: the checkers test, by computation, that the computed set contains the
   entry and is closed under the call facts; then it contains everything the inductive relation [reaches] reaches *)
Definition closed (p : package) (rs : list string) : bool :=
  forallb (fun n => forallb (fun c => mem c rs) (calls_of p n)) rs.

Inductive reaches (p : package) (a : string) : string -> Prop :=
| reaches_refl : reaches p a a
| reaches_step b c : reaches p a b -> In c (calls_of p b) -> reaches p a c.

Lemma closed_sound p rs a :
  mem a rs = true -> closed p rs = true -> forall b, reaches p a b -> In b rs.
Proof.
  intros Ha Hc b Hr. induction Hr as [|b c Hr IH Hin].
  - apply mem_In. exact Ha.
  - unfold closed in Hc. rewrite forallb_forall in Hc. specialize (Hc b IH). rewrite forallb_forall in Hc.
    apply mem_In. apply Hc. exact Hin.
Qed.

(* ------------------------------------------------------------------------------------------------------------------------- *)
(* the rule *)

Definition has_recv (e : string) (cs : list comm) : bool :=
  existsb (fun c => comm_eqb c (CRecv, e)) cs.

Definition is_nil {A} (l : list A) : bool := match l with [] => true | _ => false end.

(* alts: the stop alternatives of the goroutine (channel expressions); a goroutine without any gets no select accepted except
   one with a default *)
Definition stoppable_by (alts : list string) (o : op) : bool :=
  match o with
  | BSelect cs d => d || (negb (is_nil alts) && forallb (fun a => has_recv a cs) alts)
  | BGo _ => true
  | _ => false
  end.

Inductive stoppable (alts : list string) : op -> Prop :=
| st_default cs : stoppable alts (BSelect cs true)
| st_alts cs d : alts <> [] -> (forall a, In a alts -> In (CRecv, a) cs) -> stoppable alts (BSelect cs d)
| st_go c : stoppable alts (BGo c).

Lemma has_recv_In e cs : has_recv e cs = true -> In (CRecv, e) cs.
Proof.
  unfold has_recv. rewrite existsb_exists. intros [c [Hin Heq]]. apply comm_eqb_eq in Heq. subst. exact Hin.
Qed.

Lemma stoppable_by_sound alts o : stoppable_by alts o = true -> stoppable alts o.
Proof.
  destruct o; simpl; try discriminate.
  - destruct has_default; simpl; [intros _; apply st_default|].
    intros H. apply andb_true_iff in H. destruct H as [Hn Hall]. apply st_alts.
    + destruct alts; [discriminate|congruence].
    + intros a Ha. rewrite forallb_forall in Hall. apply has_recv_In. auto.
  - intros _. apply st_go.
Qed.

(* ------------------------------------------------------------------------------------------------------------------------- *)
(* goroutine entries, derived from the facts *)

(* the goroutine that the constructor [ctor] starts: the constructor has exactly one go statement, this is its target *)
Definition ctor_goroutine (p : package) (ctor : string) : option string :=
  match find_func p ctor with
  | Some f => match fn_gos f with [g] => Some g | _ => None end
  | None => None
  end.

Lemma ctor_goroutine_spec p ctor g :
  ctor_goroutine p ctor = Some g -> exists f, find_func p ctor = Some f /\ fn_gos f = [g].
Proof.
  unfold ctor_goroutine. destruct (find_func p ctor) as [f|]; [|discriminate].
  destruct (fn_gos f) as [|g' [|? ?]] eqn:E; try discriminate. intros H. inversion H; subst. exists f. split; [reflexivity|exact E].
Qed.

(* the goroutine [entry] is started by exactly one go statement of the package and is never called as a plain function *)
Definition started_once (p : package) (entry : string) : bool :=
  Nat.eqb (List.length (filter (String.eqb entry) (flat_map fn_gos (pkg_funcs p)))) 1 &&
  negb (existsb (fun f => mem entry (fn_calls f)) (pkg_funcs p)).

Lemma started_once_never_called p entry :
  started_once p entry = true -> forall f, In f (pkg_funcs p) -> ~ In entry (fn_calls f).
Proof.
  unfold started_once. intros H f Hf Hin. apply andb_true_iff in H. destruct H as [_ H]. apply negb_true_iff in H.
  assert (existsb (fun f => mem entry (fn_calls f)) (pkg_funcs p) = true) as E.
  { apply existsb_exists. exists f. split; [exact Hf|]. apply mem_In. exact Hin. }
  congruence.
Qed.

(* the go targets of the functions that the goroutine [entry] runs *)
Definition gos_from (p : package) (entry : string) : list string := flat_map (gos_of p) (reachable p entry).

(* the goroutines started, transitively, by the goroutine [entry] (itself included): work list with fuel; [gos_within] below
   certifies the result *)
Fixpoint spawn (p : package) (fuel : nat) (work seen : list string) : list string :=
  match fuel with
  | O => seen
  | S f =>
      match work with
      | [] => seen
      | g :: rest =>
          if mem g seen then spawn p f rest seen
          else spawn p f (gos_from p g ++ rest) (g :: seen)
      end
  end.

Definition goroutines (p : package) (entry : string) : list string := rev (spawn p (fuel_of p) [entry] []).

(* the goroutines started (transitively) by the goroutines [entries] are among [entries]: none is overlooked *)
Definition gos_within (p : package) (entries : list string) : bool :=
  forallb (fun e => forallb (fun n => forallb (fun g => mem g entries) (gos_of p n)) (reachable p e)) entries.

(* the computed call closure of [e] contains e and is closed: it is sound for [reaches] *)
Definition reach_ok (p : package) (e : string) : bool :=
  let rs := reachable p e in mem e rs && closed p rs.

Lemma reach_ok_sound p e : reach_ok p e = true -> forall n, reaches p e n -> In n (reachable p e).
Proof.
  unfold reach_ok. intros H n Hr. apply andb_true_iff in H. destruct H as [H1 H2]. exact (closed_sound p _ e H1 H2 n Hr).
Qed.

Inductive spawns (p : package) (a : string) : string -> Prop :=
| spawns_refl : spawns p a a
| spawns_step b n g : spawns p a b -> reaches p b n -> In g (gos_of p n) -> spawns p a g.

Lemma gos_within_sound p gs a :
  In a gs -> forallb (reach_ok p) gs = true -> gos_within p gs = true -> forall g, spawns p a g -> In g gs.
Proof.
  intros Ha Hok Hw g Hs. induction Hs as [|b n g Hs IH Hr Hg]; [exact Ha|].
  rewrite forallb_forall in Hok. pose proof (reach_ok_sound p b (Hok b IH) n Hr) as Hn.
  unfold gos_within in Hw. rewrite forallb_forall in Hw. specialize (Hw b IH).
  rewrite forallb_forall in Hw. specialize (Hw n Hn). rewrite forallb_forall in Hw. apply mem_In. apply Hw. exact Hg.
Qed.

(* ------------------------------------------------------------------------------------------------------------------------- *)
(* exceptions: keyed by the operation and a structural place, never by the name of a function *)

Inductive place :=
| Anywhere    (* in any function that the goroutine runs *)
| InEntry.    (* only in the entry function of the goroutine, and only if the goroutine is started by exactly one go statement
                 of the package and its entry function is never called ([started_once]) *)

Definition exceptions := list (place * op).

Definition place_ok (p : package) (entry n : string) (pl : place) : bool :=
  match pl with
  | Anywhere => true
  | InEntry => String.eqb n entry && started_once p entry
  end.

(* operation [o], occurring in function [n] of the goroutine [entry], is excepted *)
Definition exc_mem (p : package) (entry n : string) (o : op) (exc : exceptions) : bool :=
  existsb (fun e => op_eqb (snd e) o && place_ok p entry n (fst e)) exc.

Definition excepted (p : package) (entry n : string) (o : op) (exc : exceptions) : Prop :=
  In (Anywhere, o) exc \/ (In (InEntry, o) exc /\ n = entry /\ started_once p entry = true).

Lemma exc_mem_sound p entry n o exc : exc_mem p entry n o exc = true -> excepted p entry n o exc.
Proof.
  unfold exc_mem. rewrite existsb_exists. intros [[pl o'] [Hin H]]. simpl in H. apply andb_true_iff in H. destruct H as [H1 H2].
  apply op_eqb_eq in H1. subst o'. destruct pl; simpl in H2.
  - left. exact Hin.
  - right. apply andb_true_iff in H2. destruct H2 as [H2 H3]. apply String.eqb_eq in H2. auto.
Qed.

Definition op_ok (p : package) (entry : string) (alts : list string) (exc : exceptions) (n : string) (o : op) : bool :=
  stoppable_by alts o || exc_mem p entry n o exc.

(* the goroutine that starts at [entry]: every operation of every reachable function is stoppable or excepted *)
Definition check_entry (p : package) (entry : string) (alts : list string) (exc : exceptions) : bool :=
  let rs := reachable p entry in
  nodupb (names p) && mem entry rs && closed p rs &&
  forallb (fun n => match find_func p n with
                    | Some f => forallb (op_ok p entry alts exc n) (fn_ops f)
                    | None => false
                    end) rs.

(* readable statements *)
Definition entry_stoppable (p : package) (entry : string) (alts : list string) (exc : exceptions) : Prop :=
  forall n, reaches p entry n ->
  exists f, find_func p n = Some f /\ forall o, In o (fn_ops f) -> stoppable alts o \/ excepted p entry n o exc.

(* the same over the computed list and the functions of the table (no function of the table is shadowed by another one) *)
Definition entry_stoppable_list (p : package) (entry : string) (alts : list string) (exc : exceptions) : Prop :=
  forall f o, In f (pkg_funcs p) -> In (fn_name f) (reachable p entry) -> In o (fn_ops f) ->
    stoppable alts o \/ excepted p entry (fn_name f) o exc.

Definition entry_checked (p : package) (entry : string) (alts : list string) (exc : exceptions) : Prop :=
  entry_stoppable p entry alts exc /\ entry_stoppable_list p entry alts exc.

Lemma op_ok_sound p entry alts exc n o : op_ok p entry alts exc n o = true -> stoppable alts o \/ excepted p entry n o exc.
Proof.
  unfold op_ok. intros H. apply orb_true_iff in H. destruct H as [Hs|He].
  - left. apply stoppable_by_sound. exact Hs.
  - right. apply exc_mem_sound. exact He.
Qed.

Lemma check_entry_reach_ok p entry alts exc : check_entry p entry alts exc = true -> reach_ok p entry = true.
Proof.
  unfold check_entry, reach_ok. intros H. destruct (andb_prop _ _ H) as [H1 _]. destruct (andb_prop _ _ H1) as [H2 Hclosed].
  destruct (andb_prop _ _ H2) as [_ Hentry]. cbv zeta. rewrite Hentry, Hclosed. reflexivity.
Qed.

Lemma check_entry_sound p entry alts exc :
  check_entry p entry alts exc = true -> entry_stoppable p entry alts exc.
Proof.
  intros H n Hr. pose proof (reach_ok_sound p entry (check_entry_reach_ok _ _ _ _ H) n Hr) as Hin.
  unfold check_entry in H. destruct (andb_prop _ _ H) as [_ Hall].
  rewrite forallb_forall in Hall. specialize (Hall n Hin).
  destruct (find_func p n) as [f|]; [|discriminate]. exists f. split; [reflexivity|].
  intros o Ho. rewrite forallb_forall in Hall. apply op_ok_sound. exact (Hall o Ho).
Qed.

Lemma check_entry_list p entry alts exc :
  check_entry p entry alts exc = true -> entry_stoppable_list p entry alts exc.
Proof.
  unfold check_entry. intros H. destruct (andb_prop _ _ H) as [H1 Hall]. destruct (andb_prop _ _ H1) as [H2 _].
  destruct (andb_prop _ _ H2) as [Hnd _]. intros f o Hf Hin Ho.
  rewrite forallb_forall in Hall. specialize (Hall _ Hin).
  rewrite (find_func_In p f (nodupb_NoDup _ Hnd) Hf) in Hall.
  rewrite forallb_forall in Hall. apply op_ok_sound. exact (Hall o Ho).
Qed.

Lemma check_entry_checked p entry alts exc :
  check_entry p entry alts exc = true -> entry_checked p entry alts exc.
Proof. intros H. split; [apply check_entry_sound|apply check_entry_list]; exact H. Qed.

(* and: the computed list is exactly sound for the inductive relation *)
Lemma check_entry_reachable p entry alts exc :
  check_entry p entry alts exc = true -> forall n, reaches p entry n -> In n (reachable p entry).
Proof. intros H. apply reach_ok_sound. exact (check_entry_reach_ok _ _ _ _ H). Qed.

(* ------------------------------------------------------------------------------------------------------------------------- *)
(* side conditions of the exceptions, read off the extra facts *)

Definition ends_with (suf s : string) : bool :=
  let k := String.length suf in
  let n := String.length s in
  Nat.leb k n && String.eqb (substring (n - k) k s) suf.

(* every send (plain or as a comm clause of a select) of the package to a channel expression ending in [suf]:
   (function, channel expression) *)
Definition sends_of_op (o : op) : list string :=
  match o with
  | BSend x => [x]
  | BSelect cs _ => map snd (filter (fun c => dir_eqb (fst c) CSend) cs)
  | _ => []
  end.

Definition sends_matching (p : package) (suf : string) : list (string * string) :=
  flat_map (fun f => map (fun x => (fn_name f, x)) (filter (ends_with suf) (flat_map sends_of_op (fn_ops f)))) (pkg_funcs p).

Definition makes_of (p : package) (target : string) : list (string * string * string) :=
  filter (fun m => String.eqb (snd (fst m)) target) (pkg_makes p).

Definition pair_eqb (a b : string * string) : bool := String.eqb (fst a) (fst b) && String.eqb (snd a) (snd b).
Definition triple_eqb (a b : string * string * string) : bool := pair_eqb (fst a) (fst b) && String.eqb (snd a) (snd b).

Lemma pair_eqb_eq a b : pair_eqb a b = true -> a = b.
Proof.
  destruct a, b. unfold pair_eqb. simpl. intros H. apply andb_true_iff in H. destruct H as [H1 H2].
  apply String.eqb_eq in H1. apply String.eqb_eq in H2. congruence.
Qed.

Lemma triple_eqb_eq a b : triple_eqb a b = true -> a = b.
Proof.
  destruct a as [a1 a2], b as [b1 b2]. unfold triple_eqb. simpl. intros H. apply andb_true_iff in H. destruct H as [H1 H2].
  apply pair_eqb_eq in H1. apply String.eqb_eq in H2. congruence.
Qed.

Definition has_const (p : package) (name value : string) : bool :=
  existsb (fun c => pair_eqb c (name, value)) (pkg_consts p).

Definition count_pair (a : string * string) (l : list (string * string)) : nat := List.length (filter (pair_eqb a) l).

(* The 1-buffered error channels of package priority (Discipline.err, Simple.err), without a function name:
   - the sends of the whole package (plain or in a select) to a channel expression `*.err` are exactly two: one to `dsc.err` in
     the entry function of the goroutine that New starts, one to `smpl.err` in the entry function of the goroutine that
     NewSimple starts;
   - the `make(chan ...)` assigned to a variable / field `err` are exactly `make(chan error, 1)` in New and in NewSimple;
   - both goroutines are started by exactly one go statement and their entry functions are never called. *)
Definition err_channels_ok (p : package) : bool :=
  match ctor_goroutine p "New", ctor_goroutine p "NewSimple" with
  | Some e1, Some e2 =>
      let sends := sends_matching p ".err" in
      forallb (fun s => pair_eqb s (e1, "dsc.err") || pair_eqb s (e2, "smpl.err")) sends &&
      Nat.eqb (count_pair (e1, "dsc.err") sends) 1 && Nat.eqb (count_pair (e2, "smpl.err") sends) 1 &&
      list_eqb triple_eqb (makes_of p "err") [("New", "err", "make(chan error, 1)"); ("NewSimple", "err", "make(chan error, 1)")] &&
      started_once p e1 && started_once p e2
  | _, _ => false
  end.

Definition err_channels_statement (p : package) : Prop :=
  exists e1 e2, ctor_goroutine p "New" = Some e1 /\ ctor_goroutine p "NewSimple" = Some e2 /\
    (forall s, In s (sends_matching p ".err") -> s = (e1, "dsc.err") \/ s = (e2, "smpl.err")) /\
    count_pair (e1, "dsc.err") (sends_matching p ".err") = 1 /\ count_pair (e2, "smpl.err") (sends_matching p ".err") = 1 /\
    makes_of p "err" = [("New", "err", "make(chan error, 1)"); ("NewSimple", "err", "make(chan error, 1)")] /\
    started_once p e1 = true /\ started_once p e2 = true.

Lemma err_channels_ok_sound p : err_channels_ok p = true -> err_channels_statement p.
Proof.
  unfold err_channels_ok, err_channels_statement.
  destruct (ctor_goroutine p "New") as [e1|]; [|discriminate]. destruct (ctor_goroutine p "NewSimple") as [e2|]; [|discriminate].
  cbv zeta. intros H. destruct (andb_prop _ _ H) as [H1 Hs2]. destruct (andb_prop _ _ H1) as [H2 Hs1].
  destruct (andb_prop _ _ H2) as [H3 Hmk]. destruct (andb_prop _ _ H3) as [H4 Hc2]. destruct (andb_prop _ _ H4) as [Hall Hc1].
  exists e1, e2. repeat split; auto.
  - intros s Hin. rewrite forallb_forall in Hall. specialize (Hall s Hin). apply orb_true_iff in Hall.
    destruct Hall as [E|E]; apply pair_eqb_eq in E; auto.
  - apply Nat.eqb_eq. exact Hc1.
  - apply Nat.eqb_eq. exact Hc2.
  - exact (list_eqb_eq triple_eqb triple_eqb_eq _ _ Hmk).
Qed.

(* ------------------------------------------------------------------------------------------------------------------------- *)
(* 1. package priority, the discipline goroutine = the goroutine that New starts

   Rule: every operation of every function that this goroutine runs is a select with a default, or a select with BOTH
   `<-dsc.breaker.IsBreaked()` and `<-dsc.opts.Ctx.Done()`, or one of:

   - anywhere: time.Sleep(defaultIdleDelay).  Bounded: the argument is the package constant defaultIdleDelay, checked below to
     be `1 * time.Nanosecond`; every wait of the goroutine other than this sleep has the stop alternatives.
   - anywhere: dsc.interrupter.Stop().  dsc.interrupter is a *time.Ticker; Ticker.Stop does not block (package time: "Stop turns
     off a ticker", no waiting, no channel operation).
   - in the entry function only: `dsc.err <- err`, a plain send.  Never blocks: dsc.err is created by `make(chan error, 1)` in
     New (checked: the only make assigned to a field `err` in New is that one), this is the only send of the package to `dsc.err`
     (checked: [err_channels_ok]), and the entry function runs once per discipline (checked: the goroutine is started by exactly
     one go statement, the function is never called).  Read off the source, not checked: the send is not inside a loop of the
     entry function, and nobody outside the package can send (Err() returns a receive-only channel).
   Not operations in this sense, hence assumptions of the model rather than facts checked here: calls of the user supplied
   Divider (a callback of the discipline goroutine; a Divider that blocks blocks Stop), busy loops (D3 was one: that is the
   Coq model's subject, not this checker's). *)

Definition prio_alts : list string := ["dsc.breaker.IsBreaked()"; "dsc.opts.Ctx.Done()"].

Definition prio_exceptions : exceptions :=
  [ (Anywhere, BCall "time.Sleep" "defaultIdleDelay");
    (Anywhere, BCall "dsc.interrupter.Stop" "");
    (InEntry, BSend "dsc.err") ].

Definition check_v1_priority (fs : list package) : bool :=
  match find_pkg fs "priority" with
  | Some p =>
      match ctor_goroutine p "New" with
      | Some e =>
          check_entry p e prio_alts prio_exceptions &&
          has_const p "defaultIdleDelay" "1 * time.Nanosecond" &&
          err_channels_ok p &&
          gos_within p [e]
      | None => false
      end
  | None => false
  end.

Theorem v1_priority_stoppable : check_v1_priority facts = true.
Proof. vm_compute; reflexivity. Qed.

(* [e] is the goroutine New starts; it starts no further goroutine; all it runs is stoppable *)
Definition priority_statement (p : package) (e : string) : Prop :=
  ctor_goroutine p "New" = Some e /\
  entry_checked p e prio_alts prio_exceptions /\
  (forall g, spawns p e g -> g = e) /\
  has_const p "defaultIdleDelay" "1 * time.Nanosecond" = true /\
  err_channels_statement p.

Lemma check_v1_priority_sound fs :
  check_v1_priority fs = true -> exists p e, find_pkg fs "priority" = Some p /\ priority_statement p e.
Proof.
  unfold check_v1_priority. destruct (find_pkg fs "priority") as [p|]; [|discriminate].
  destruct (ctor_goroutine p "New") as [e|] eqn:He; [|discriminate].
  intros H. destruct (andb_prop _ _ H) as [H1 Hw]. destruct (andb_prop _ _ H1) as [H2 Herr]. destruct (andb_prop _ _ H2) as [H3 Hc].
  exists p, e. split; [reflexivity|]. unfold priority_statement. repeat split; auto.
  - apply check_entry_sound. exact H3.
  - apply check_entry_list. exact H3.
  - intros g Hs. assert (In g [e]) as Hin.
    { apply (gos_within_sound p [e] e); [left; reflexivity| |exact Hw|exact Hs].
      simpl. rewrite (check_entry_reach_ok _ _ _ _ H3). reflexivity. }
    destruct Hin as [<-|[]]. reflexivity.
  - apply err_channels_ok_sound. exact Herr.
Qed.

(* the readable statement *)
Corollary v1_priority_stoppable_prop : exists p e, find_pkg facts "priority" = Some p /\ priority_statement p e.
Proof. exact (check_v1_priority_sound facts v1_priority_stoppable). Qed.

(* ------------------------------------------------------------------------------------------------------------------------- *)
(* 2. package join, the join goroutine = the goroutine that New starts

   Rule: every operation of every function that this goroutine runs is a select with a default, or a select with BOTH
   `<-dsc.breaker.IsBreaked()` and `<-dsc.opts.Ctx.Done()` (join/join.go: the two loops and both selects of send), or:

   - anywhere: ticker.Stop().  ticker is the local *time.Ticker made by time.NewTicker; Ticker.Stop does not block. *)

Definition join_alts : list string := ["dsc.breaker.IsBreaked()"; "dsc.opts.Ctx.Done()"].

Definition join_exceptions : exceptions :=
  [ (Anywhere, BCall "ticker.Stop" "") ].

Definition check_v1_join (fs : list package) : bool :=
  match find_pkg fs "join" with
  | Some p =>
      match ctor_goroutine p "New" with
      | Some e =>
          check_entry p e join_alts join_exceptions &&
          started_once p e &&
          gos_within p [e]
      | None => false
      end
  | None => false
  end.

Theorem v1_join_stoppable : check_v1_join facts = true.
Proof. vm_compute; reflexivity. Qed.

Definition join_statement (p : package) (e : string) : Prop :=
  ctor_goroutine p "New" = Some e /\
  entry_checked p e join_alts join_exceptions /\
  (forall g, spawns p e g -> g = e) /\
  started_once p e = true.

Lemma check_v1_join_sound fs :
  check_v1_join fs = true -> exists p e, find_pkg fs "join" = Some p /\ join_statement p e.
Proof.
  unfold check_v1_join. destruct (find_pkg fs "join") as [p|]; [|discriminate].
  destruct (ctor_goroutine p "New") as [e|] eqn:He; [|discriminate].
  intros H. destruct (andb_prop _ _ H) as [H1 Hw]. destruct (andb_prop _ _ H1) as [H2 Hso].
  exists p, e. split; [reflexivity|]. unfold join_statement. repeat split; auto.
  - apply check_entry_sound. exact H2.
  - apply check_entry_list. exact H2.
  - intros g Hs. assert (In g [e]) as Hin.
    { apply (gos_within_sound p [e] e); [left; reflexivity| |exact Hw|exact Hs].
      simpl. rewrite (check_entry_reach_ok _ _ _ _ H2). reflexivity. }
    destruct Hin as [<-|[]]. reflexivity.
Qed.

Corollary v1_join_stoppable_prop : exists p e, find_pkg facts "join" = Some p /\ join_statement p e.
Proof. exact (check_v1_join_sound facts v1_join_stoppable). Qed.

(* ------------------------------------------------------------------------------------------------------------------------- *)
(* 3. package priority, the goroutines of Simple

   The main goroutine M = the goroutine that NewSimple starts (in the source: Simple.main, which calls Simple.gracefulStop), and
   the goroutines that M starts, transitively ([goroutines]; checked: the go statements reachable from them start nothing
   else).  Every one of the latter must be a HANDLER or a HELPER, as defined below (in the source: Simple.handler, started
   HandlersQuantity times by the entry function of M, and the `go func() {...}()` of Simple.gracefulStop, whose body the
   translator makes a function of its own).

   M.  Stop alternatives: `<-smpl.breaker.IsBreaked()` and `<-smpl.opts.Ctx.Done()`; every select of every function M runs must
   have both (or a default).  Exceptions, all of them only in the ENTRY function of M (started once, never called); in the
   source they are in its deferred tail, which runs only after its select has returned, i.e. when the discipline is terminating:
   - smpl.priority.Stop(): Stop of the inner prioritization discipline = breaker.Break(): closes the channel that
     dsc.breaker.IsBreaked() returns and waits for the inner discipline goroutine to call Complete().  Bounded by theorem 1
     (check_v1_priority is a conjunct of this check).  The inner discipline gets no Ctx (context.Background), so this call is
     the only way it is stopped, and it is reached from every branch of the entry function's select.
   - smpl.wg.Wait(): waits for the handler goroutines.  It is deferred BEFORE `defer cancel()` and therefore runs after
     cancel() (read off the source; the facts do not carry defer order).  Bounded because every blocking operation of a
     handler is a select with `<-ctx.Done()` (below), ctx being the context that cancel() cancels -- and under the documented
     contract of the callback ("Function should be interrupted when context is canceled"): smpl.opts.Handle(ctx, item) is a
     user callback, not an operation in the sense of these facts.
   - `smpl.err <- err`: never blocks; smpl.err is `make(chan error, 1)` in NewSimple, this is the only send to it, the entry
     function runs once ([err_channels_ok], as for dsc.err).

   HANDLER: a goroutine whose every blocking operation is a select with `<-ctx.Done()` (or a default); no exceptions.

   HELPER: a goroutine that
     - is the target of a go statement of a function that M runs (it is started by M itself),
     - is NOT started by the entry function of M (the goroutines that the entry function starts are the ones its wg.Wait()
       waits for: those must be handlers),
     - has no stop alternative of its own and no blocking operation other than, in its entry function (started once, never
       called), the excepted
       smpl.priority.GracefulStop() = graceful.Break() of the inner discipline: returns when the inner discipline goroutine has
       completed.  Once Stop()/cancel has been requested, M leaves the select next to which the helper was started (it has both
       stop alternatives, like every select of M) and the deferred smpl.priority.Stop() terminates the inner discipline within
       bounded time (theorem 1); then this call returns.  Nobody waits for the helper (`stopped` is only read in that select),
       so it cannot delay Stop().
     The exception belongs to the helper goroutine only: calling smpl.priority.GracefulStop() in a function that M itself runs
     (defect D5: inline in Simple.gracefulStop or in Simple.main) or in a handler is NOT excepted and fails the check. *)

Definition simple_main_alts : list string := ["smpl.breaker.IsBreaked()"; "smpl.opts.Ctx.Done()"].
Definition simple_handler_alts : list string := ["ctx.Done()"].
Definition simple_helper_alts : list string := [].

Definition simple_main_exceptions : exceptions :=
  [ (InEntry, BCall "smpl.priority.Stop" "");
    (InEntry, BCall "smpl.wg.Wait" "");
    (InEntry, BSend "smpl.err") ].

Definition simple_handler_exceptions : exceptions := [].

Definition simple_helper_exceptions : exceptions :=
  [ (InEntry, BCall "smpl.priority.GracefulStop" "") ].

Definition is_handler (p : package) (g : string) : bool :=
  check_entry p g simple_handler_alts simple_handler_exceptions.

Definition is_helper (p : package) (m g : string) : bool :=
  check_entry p g simple_helper_alts simple_helper_exceptions && mem g (gos_from p m) && negb (mem g (gos_of p m)).

Definition check_v1_simple (fs : list package) : bool :=
  match find_pkg fs "priority" with
  | Some p =>
      match ctor_goroutine p "NewSimple" with
      | Some m =>
          let gs := goroutines p m in
          check_entry p m simple_main_alts simple_main_exceptions &&
          forallb (fun g => String.eqb g m || is_handler p g || is_helper p m g) gs &&
          mem m gs && gos_within p gs &&
          err_channels_ok p &&
          check_v1_priority fs
      | None => false
      end
  | None => false
  end.

Theorem v1_simple_stoppable : check_v1_simple facts = true.
Proof. vm_compute; reflexivity. Qed.

Definition handler_statement (p : package) (g : string) : Prop :=
  entry_checked p g simple_handler_alts simple_handler_exceptions.

Definition helper_statement (p : package) (m g : string) : Prop :=
  entry_checked p g simple_helper_alts simple_helper_exceptions /\ In g (gos_from p m) /\ ~ In g (gos_of p m).

Definition simple_statement (p : package) (m : string) : Prop :=
  ctor_goroutine p "NewSimple" = Some m /\
  entry_checked p m simple_main_alts simple_main_exceptions /\
  (forall g, spawns p m g -> g = m \/ handler_statement p g \/ helper_statement p m g) /\
  err_channels_statement p /\
  (exists e, priority_statement p e).

Lemma check_v1_simple_sound fs :
  check_v1_simple fs = true -> exists p m, find_pkg fs "priority" = Some p /\ simple_statement p m.
Proof.
  unfold check_v1_simple. destruct (find_pkg fs "priority") as [p|] eqn:Hp; [|discriminate].
  destruct (ctor_goroutine p "NewSimple") as [m|] eqn:Hm; [|discriminate]. cbv zeta.
  intros H. destruct (andb_prop _ _ H) as [H1 Hprio]. destruct (andb_prop _ _ H1) as [H2 Herr]. destruct (andb_prop _ _ H2) as [H3 Hw].
  destruct (andb_prop _ _ H3) as [H4 Hmem]. destruct (andb_prop _ _ H4) as [Hmain Hall].
  exists p, m. split; [reflexivity|]. unfold simple_statement.
  split; [exact Hm|]. split; [apply check_entry_checked; exact Hmain|]. split; [|split].
  - rewrite forallb_forall in Hall.
    assert (forallb (reach_ok p) (goroutines p m) = true) as Hok.
    { apply forallb_forall. intros g Hg. specialize (Hall g Hg).
      apply orb_true_iff in Hall. destruct Hall as [Hall|Hhelper].
      - apply orb_true_iff in Hall. destruct Hall as [E|Hhandler].
        + apply String.eqb_eq in E. subst g. exact (check_entry_reach_ok _ _ _ _ Hmain).
        + exact (check_entry_reach_ok _ _ _ _ Hhandler).
      - unfold is_helper in Hhelper. destruct (andb_prop _ _ Hhelper) as [Hh _]. destruct (andb_prop _ _ Hh) as [Hh' _].
        exact (check_entry_reach_ok _ _ _ _ Hh'). }
    intros g Hs. apply mem_In in Hmem. pose proof (gos_within_sound p _ m Hmem Hok Hw g Hs) as Hg.
    specialize (Hall g Hg). apply orb_true_iff in Hall. destruct Hall as [Hall|Hhelper].
    + apply orb_true_iff in Hall. destruct Hall as [E|Hhandler].
      * left. apply String.eqb_eq. exact E.
      * right. left. apply check_entry_checked. exact Hhandler.
    + right. right. unfold is_helper in Hhelper. destruct (andb_prop _ _ Hhelper) as [Hh Hnot]. destruct (andb_prop _ _ Hh) as [Hc Hin].
      split; [apply check_entry_checked; exact Hc|]. split; [apply mem_In; exact Hin|].
      intros Hbad. apply mem_In in Hbad. rewrite Hbad in Hnot. discriminate.
  - apply err_channels_ok_sound. exact Herr.
  - destruct (check_v1_priority_sound fs Hprio) as [p' [e [Hp' Hs]]]. rewrite Hp in Hp'. inversion Hp'; subst. exists e. exact Hs.
Qed.

Corollary v1_simple_stoppable_prop : exists p m, find_pkg facts "priority" = Some p /\ simple_statement p m.
Proof. exact (check_v1_simple_sound facts v1_simple_stoppable). Qed.

(* what the derivation yields on the current source (printed at compile time; not a proof obligation) *)
Eval vm_compute in (match find_pkg facts "priority" with
                    | Some p => (ctor_goroutine p "New", ctor_goroutine p "NewSimple",
                                 match ctor_goroutine p "NewSimple" with Some m => goroutines p m | None => [] end)
                    | None => (None, None, [])
                    end).
Eval vm_compute in (match find_pkg facts "join" with Some p => ctor_goroutine p "New" | None => None end).

(* ------------------------------------------------------------------------------------------------------------------------- *)
(* Not a proof obligation, an inventory (printed at compile time): the potentially blocking operations reachable from the
   EXPORTED functions of the v1 packages that are not selects with a default.  These run in the caller's goroutine, not in a
   library goroutine; the three theorems above say nothing about them. *)
Definition caller_side (fs : list package) (path : string) : list (string * string * op) :=
  match find_pkg fs path with
  | Some p =>
      flat_map (fun f =>
        if fn_exported f then
          flat_map (fun n => match find_func p n with
                             | Some g => map (fun o => (fn_name f, n, o)) (filter (fun o => negb (stoppable_by [] o)) (fn_ops g))
                             | None => []
                             end) (rev (reachable p (fn_name f)))
        else []) (pkg_funcs p)
  | None => []
  end.

Eval vm_compute in (caller_side facts "priority").
Eval vm_compute in (caller_side facts "join").
