(* The blocking points of the handler goroutine of the v1 Simple discipline (priority/simple.go; GenConcV1Simple.v, run by
   GoConc.v), for any state and any continuation.  The handler does not look at the breaker or at opts.Ctx: both its selects
   offer Done() of the context that main() derives from opts.Ctx and cancels when it returns (CCtxArgDone).  The call of the
   user's Handle callback is a hand-over to the environment without any stop alternative.
   main() and gracefulStop() start goroutines and are not generated (GoConc.v has no goroutine creation). *)
From Coq Require Import List NArith ZArith Bool.
From Cqos Require Import GoSem GoConc GenV1Simple GenConcV1Simple.
Import ListNotations.

Definition stmtT := stmt cstate payload chan_id fname.
Definition wbody (s : stmtT) : list stmtT := match s with While _ b => b | _ => [] end.
Definition sel_alt (n : nat) (s : stmtT) : list stmtT :=
  match s with Select alts _ => match nth_error alts n with Some (_, b) => b | None => [] end | _ => [] end.
Definition at_ (n : nat) (l : list stmtT) : stmtT := nth n l Return.
Definition loopW := at_ 1 body_handler.
Definition gotItem := sel_alt 1 (at_ 0 (wbody loopW)).

(* waiting for an item: the derived context or the output of the priority discipline *)
Theorem blocked_handler_wait v k :
  step1 table (v, KSeq (wbody loopW) :: k) = Block (RqSelect [(CCtxArgDone, None); (COutput, None)] false).
Proof. reflexivity. Qed.
(* the callback: no alternative *)
Theorem blocked_handler_call v k :
  step1 table (v, KSeq gotItem :: k) = Block (RqSend CHandleCall (PN (Prioritized_Item (handler_prioritized v)))).
Proof. reflexivity. Qed.
(* giving the handler back: the derived context or the write of the priority to the feedback channel *)
Theorem blocked_handler_feedback v k :
  step1 table (v, KSeq (skipn 1 gotItem) :: k) =
  Block (RqSelect [(CCtxArgDone, None); (CFeedback, Some (PN (Prioritized_Priority (handler_prioritized v))))] false).
Proof. reflexivity. Qed.

Fixpoint nblock (s : stmtT) : nat :=
  let gs := fix gs (b : list stmtT) : nat := match b with [] => 0%nat | x :: y => (nblock x + gs y)%nat end in
  match s with
  | Recv _ _ | GoConc.Send _ _ | Sleep _ | Now _ | NewTicker _ => 1%nat
  | Select alts d =>
      (1 + (fix go (l : list (comm cstate payload chan_id * list stmtT)) : nat :=
              match l with [] => 0 | a :: r => gs (snd a) + go r end) alts
         + match d with Some b => gs b | None => 0 end)%nat
  | If _ t e => (gs t + gs e)%nat
  | While _ b => gs b
  | Defer b => gs b
  | _ => 0%nat
  end.
Definition nblocks (l : list stmtT) : nat := fold_right (fun x n => (nblock x + n)%nat) 0%nat l.
(* the three statements above are all (the deferred wg.Done() is a close) *)
Theorem blocking_statements : nblocks (table F_handler) = 3%nat.
Proof. reflexivity. Qed.

Print Assumptions blocked_handler_wait.
Print Assumptions blocked_handler_feedback.
Print Assumptions blocking_statements.
